"""Shared machinery for the per-property checks (see DESIGN.md section 2.1).

Every MANIFEST command is `python3 tools/vcheck.py <Cxx> --tier quick|thorough`.
Steps: translate -> prove -> build implementation -> correspond -> decide -> evidence.
"""
import fcntl, hashlib, importlib, json, os, random, re, subprocess, sys, time
from concurrent.futures import ThreadPoolExecutor

ROOT = os.path.dirname(os.path.dirname(os.path.abspath(__file__)))
COQ = os.path.join(ROOT, "coq")
HARNESS = os.path.join(ROOT, "harness")
MODELRUN = os.path.join(ROOT, "modelrun")
REPO = "/repo"
WORK = os.path.join(ROOT, "work")
NCPU = 16

FORBIDDEN = re.compile(
    r"\b(Admitted|admit|Axiom|Axioms|Parameter|Parameters|Conjecture|Abort All|Admit Obligations)\b"
    r"|Unset\s+Guard|Unset\s+Positivity|Unset\s+Universe|bypass_check|type-in-type|impredicative-set|native_compute"
)
# stdlib axioms a development may legitimately pick up; every one that actually appears is named in the evidence
STDLIB_AXIOMS = {
    "functional_extensionality_dep", "FunctionalExtensionality.functional_extensionality_dep",
    "Eqdep.Eq_rect_eq.eq_rect_eq", "Classical_Prop.classic", "proof_irrelevance", "JMeq_eq",
}

ENV = dict(os.environ, CARGO_NET_OFFLINE="true", GOPROXY="off", PIP_NO_INDEX="1")


def sh(cmd, cwd=None, timeout=3600, env=None, input=None):
    """Run a shell command; returns (rc, stdout+stderr)."""
    try:
        p = subprocess.run(cmd, shell=isinstance(cmd, str), cwd=cwd, env=env or ENV, input=input,
                           stdout=subprocess.PIPE, stderr=subprocess.STDOUT, timeout=timeout, text=True)
        return p.returncode, p.stdout
    except subprocess.TimeoutExpired as e:
        return 124, (e.stdout or "") + "\nTIMEOUT"


class Lock:
    def __init__(self, name):
        os.makedirs(WORK, exist_ok=True)
        self.path = os.path.join(WORK, name + ".lock")

    def __enter__(self):
        self.f = open(self.path, "w")
        fcntl.flock(self.f, fcntl.LOCK_EX)

    def __exit__(self, *a):
        fcntl.flock(self.f, fcntl.LOCK_UN)
        self.f.close()


def write_if_changed(path, content):
    try:
        if open(path).read() == content:
            return False
    except OSError:
        pass
    os.makedirs(os.path.dirname(path), exist_ok=True)
    with open(path, "w") as f:
        f.write(content)
    return True


# ---------------------------------------------------------------- Coq side

def coq_project():
    rc, out = sh([os.path.join(ROOT, "tools", "coqproject.sh")])
    if rc != 0:
        raise RuntimeError("coqproject.sh failed: " + out)


def coq_make(targets, timeout=3000, force=(), keep_going=False):
    """Full .vo build of the given targets (and what they depend on).  Returns (ok, log)."""
    with Lock("coq"):
        coq_project()
        for t in force:
            try:
                os.remove(os.path.join(COQ, t))
            except OSError:
                pass
        rc, out = sh(["timeout", str(timeout), "make", "-j%d" % NCPU] + (["-k"] if keep_going else []) + list(targets), cwd=COQ, timeout=timeout + 30)
    return rc == 0, out


def forbidden_scan():
    """grep the whole development for escape hatches; returns list of 'file:line: text'."""
    hits = []
    for d, _, fs in os.walk(COQ):
        for f in fs:
            if not f.endswith(".v"):
                continue
            p = os.path.join(d, f)
            txt = open(p, errors="replace").read()
            # strip comments (non-nested is enough for our files; nested handled by loop)
            prev = None
            while prev != txt:
                prev = txt
                txt = re.sub(r"\(\*(?:(?!\(\*|\*\)).)*\*\)", lambda m: "\n" * m.group(0).count("\n"), txt, flags=re.S)
            for i, line in enumerate(txt.split("\n"), 1):
                if FORBIDDEN.search(line):
                    hits.append("%s:%d: %s" % (os.path.relpath(p, COQ), i, line.strip()))
    return hits


THM_RE = re.compile(r"^(Theorem|Example)\s+(\w+)\s*:(.*?)\.\s*\nProof\.", re.S | re.M)


def theorem_statements(props_file):
    txt = open(os.path.join(COQ, props_file)).read()
    return [(m.group(1), m.group(2), " ".join(m.group(3).split())) for m in THM_RE.finditer(txt)]


def pinned_path(prop):
    return os.path.join(ROOT, "tools", "pinned", prop + ".statements")


def pin(prop, props_file):
    sts = theorem_statements(props_file)
    with open(pinned_path(prop), "w") as f:
        for kind, name, st in sts:
            f.write("%s %s : %s\n" % (kind, name, st))
    return len(sts)


def parse_assumptions(log):
    """Split coqc output after each `Print Assumptions`: returns list of axiom-name lists (in order)."""
    res = []
    lines = log.split("\n")
    i = 0
    while i < len(lines):
        l = lines[i]
        if l.startswith("Closed under the global context"):
            res.append([])
        elif l.startswith("Axioms:"):
            ax = []
            i += 1
            while i < len(lines) and (lines[i].startswith(" ") or ":" in lines[i]) and not lines[i].startswith("COQC") \
                    and not lines[i].startswith("Closed") and not lines[i].startswith("Axioms:"):
                m = re.match(r"^(\S+)\s*:", lines[i])
                if m:
                    ax.append(m.group(1))
                i += 1
            res.append(ax)
            continue
        i += 1
    return res


# ---------------------------------------------------------------- builds

def cargo_build(bins, profile="release", features=None, timeout=3000):
    args = ["cargo", "build", "--offline"] + (["--release"] if profile == "release" else [])
    for b in bins:
        args += ["--bin", b]
    if features:
        args += ["--features", ",".join(features)]
    with Lock("cargo"):
        lock = os.path.join(HARNESS, "Cargo.lock")
        if not os.path.exists(lock):
            sh(["cp", os.path.join(REPO, "Cargo.lock"), lock])
        rc, out = sh(args, cwd=HARNESS, timeout=timeout)
    return rc == 0, out


def rust_bin(name, profile="release"):
    return os.path.join(HARNESS, "target", "release" if profile == "release" else "debug", name)


def model_build(name, timeout=900):
    """Extract coq/Extract/Ex<Name>.v and compile the OCaml driver -> modelrun/bin/<name>."""
    ex = "Extract/Ex%s.vo" % (name[0].upper() + name[1:])
    os.makedirs(os.path.join(MODELRUN, "gen"), exist_ok=True)
    gen = os.path.join(MODELRUN, "gen", name + "_model.ml")
    ok, log = coq_make([ex], timeout=timeout, force=[] if os.path.exists(gen) else [ex])
    if not ok:
        return False, log
    with Lock("ocaml"):
        binp = os.path.join(MODELRUN, "bin", name)
        srcs = [gen, os.path.join(MODELRUN, name + "_driver.ml"), os.path.join(MODELRUN, "common.ml")]
        if os.path.exists(binp) and all(os.path.getmtime(s) <= os.path.getmtime(binp) for s in srcs):
            return True, log
        rc, out = sh([os.path.join(MODELRUN, "build.sh"), name], timeout=timeout)
    return rc == 0, log + out


def model_bin(name):
    return os.path.join(MODELRUN, "bin", name)


def run_lines(cmd, lines, shards=NCPU, timeout=3000, min_shard=200, env=None):
    """Feed `lines` to `cmd` (one result line per input line), sharded over processes.  Order preserved."""
    if not lines:
        return []
    n = max(1, min(shards, len(lines) // min_shard or 1))
    size = (len(lines) + n - 1) // n
    chunks = [lines[i:i + size] for i in range(0, len(lines), size)]

    def one(chunk):
        rc, out = sh(cmd, input="\n".join(chunk) + "\n", timeout=timeout, env=env)
        res = out.split("\n")
        if res and res[-1] == "":
            res.pop()
        if rc != 0 or len(res) != len(chunk):
            # find the line that killed it by bisecting into single runs
            res2 = []
            for l in chunk:
                rc1, o1 = sh(cmd, input=l + "\n", timeout=120, env=env)
                o1 = o1.strip().split("\n")
                res2.append(o1[-1] if rc1 == 0 and o1 and o1[-1] else "CRASH rc=%d %s" % (rc1, " ".join(o1)[-200:]))
            return res2
        return res

    with ThreadPoolExecutor(max_workers=n) as ex:
        parts = list(ex.map(one, chunks))
    return [x for p in parts for x in p]


# ---------------------------------------------------------------- context / decision / evidence

class Ctx:
    def __init__(self, prop, tier, seed):
        self.prop, self.tier, self.seed = prop, tier, seed
        self.rng = random.Random(seed)
        self.t0 = time.time()
        self.evaluations = 0
        self.distinct = set()
        self.samples = []
        self.hist = {}
        self.traces_validated = 0
        self.failures = []       # dicts: kind (oracle|diff|proof|translate|build), key, case, detail
        self.notes = []
        self.engines = []
        self.obligations = 0
        self.discharged = 0
        self.axioms = set()
        self.checker_cmd = ""
        self.exhaustive = False
        self.extra = {}
        self.proof_ok = True
        self.search_mode = False

    @property
    def thorough(self):
        return self.tier == "thorough"

    def scale(self, quick, thorough):
        return thorough if (self.thorough or self.search_mode) else quick

    def count(self, bucket, n=1):
        self.hist[bucket] = self.hist.get(bucket, 0) + n

    def record(self, case, result_line, nontrivial=True, validated=True):
        self.evaluations += 1
        if validated:
            self.traces_validated += 1
        if nontrivial:
            self.distinct.add(hashlib.blake2b(result_line.encode(), digest_size=8).digest())
        if len(self.samples) < 6 and self.rng.random() < 0.02 or not self.samples:
            self.samples.append({"case": case if len(str(case)) < 400 else str(case)[:400] + "...", "result": result_line[:300]})

    def fail(self, kind, key, case, detail):
        self.failures.append({"kind": kind, "key": key, "case": case, "detail": detail})

    def note(self, s):
        self.notes.append(s)
        print("  note:", s)


def load_known(prop):
    p = os.path.join(ROOT, "KNOWN_FINDINGS.json")
    try:
        ents = json.load(open(p))["findings"]
    except OSError:
        ents = []
    return [e for e in ents if e["property"] == prop]


def write_replay(prop, payload):
    os.makedirs(os.path.join(ROOT, "replay"), exist_ok=True)
    h = hashlib.sha1(json.dumps(payload, sort_keys=True).encode()).hexdigest()[:12]
    path = os.path.join(ROOT, "replay", "%s-%s.json" % (prop, h))
    with open(path, "w") as f:
        json.dump(payload, f, indent=1)
    return path


def prove(ctx, mod):
    """Step 2: translators have run; build Props/<prop>.vo, check assumptions, pins, escape hatches."""
    props_file = "Props/%s.v" % ctx.prop
    vo = props_file + "o"
    ctx.checker_cmd = "make -C coq %s  (coq_makefile full .vo build; coqc 8.16.1)" % vo
    if ctx.thorough:
        ctx.checker_cmd += " ; coqchk -o -silent -Q coq JV JV.Props.%s" % ctx.prop
    pinned = [l.rstrip("\n") for l in open(pinned_path(ctx.prop))] if os.path.exists(pinned_path(ctx.prop)) else []
    if not os.path.exists(os.path.join(COQ, props_file)):
        ctx.fail("proof", "props-file-missing", props_file, "no theorem file for this property")
        ctx.proof_ok = False
        ctx.obligations = len([l for l in pinned if l.startswith("Theorem ")])
        return
    now = ["%s %s : %s" % t for t in theorem_statements(props_file)]
    thms = [l for l in pinned if l.startswith("Theorem ")]
    ctx.obligations = len(thms)
    if pinned != now:
        missing = [l for l in pinned if l not in now]
        ctx.fail("proof", "pinned-statement-changed", props_file,
                 "theorem statements in %s differ from tools/pinned/%s.statements: %s" % (props_file, ctx.prop, missing[:3]))
        ctx.proof_ok = False
    hits = forbidden_scan()
    if hits:
        ctx.fail("proof", "forbidden-construct", hits[:5], "escape hatch found in the development")
        ctx.proof_ok = False
    ok, log = coq_make([vo], force=[vo])
    if not ok:
        m = re.findall(r'File "\./([^"]+)", line (\d+)', log)
        where = m[-1] if m else ("?", "?")
        tail = "\n".join(log.strip().split("\n")[-25:])
        ctx.fail("proof", "coq-build-failed", "%s:%s" % where, tail)
        ctx.proof_ok = False
        return
    ass = parse_assumptions(log)
    n_print = len(re.findall(r"^Print Assumptions", open(os.path.join(COQ, props_file)).read(), flags=re.M))
    if len(ass) != n_print or n_print < len(thms):
        ctx.fail("proof", "assumption-output-mismatch", props_file,
                 "expected %d Print Assumptions outputs (>= %d theorems), got %d" % (n_print, len(thms), len(ass)))
        ctx.proof_ok = False
        return
    bad = []
    for a in ass:
        for x in a:
            base = x.split(".")[-1]
            if x in STDLIB_AXIOMS or base in STDLIB_AXIOMS:
                ctx.axioms.add(x)
            else:
                bad.append(x)
    if bad:
        ctx.fail("proof", "unexpected-axiom", bad, "Print Assumptions reports axioms outside the stdlib allowlist")
        ctx.proof_ok = False
        return
    if ctx.thorough:
        with Lock("coq"):
            rc, out = sh(["timeout", "1500", "coqchk", "-o", "-silent", "-Q", ".", "JV", "JV.Props.%s" % ctx.prop], cwd=COQ, timeout=1600)
        ctx.extra["coqchk_rc"] = rc
        ctx.extra["coqchk_tail"] = out.strip().split("\n")[-12:]
        if rc != 0:
            ctx.fail("proof", "coqchk-failed", props_file, out[-1500:])
            ctx.proof_ok = False
            return
    if ctx.proof_ok:
        ctx.discharged = len(thms)


TRUSTED_COMMON = [
    "Coq 8.16.1 kernel (coqc; coqchk in the thorough tier); vm_compute used in Examples/_refuted witnesses; no native_compute",
    "axioms under the property theorems: none expected (Print Assumptions is parsed on every run; any stdlib axiom that appears is listed in coverage.axioms)",
    "extraction: ExtrOcamlBasic only (no Extract Constant / Extract Inductive of our own); modelrun/common.ml uses Obj.magic for int<->byte, self-checked at start-up; OCaml 4.13.1",
    "correspondence harness (Rust drivers in /verif/harness, Python generators/oracles in /verif/tools/props) and its generator quality",
]


def finish(ctx, mod):
    """Decide, print KNOWN-FINDING / VIOLATION lines, write evidence, return exit code."""
    known = load_known(ctx.prop)
    exit_code = 0
    seen_known = set()
    new = []
    for f in ctx.failures:
        k = next((e for e in known if e.get("status") == "known" and e["key"] == f["key"]), None)
        if k is not None:
            if k["key"] not in seen_known:
                seen_known.add(k["key"])
                print("KNOWN-FINDING: property=%s %s" % (ctx.prop, k["what"]))
        else:
            new.append(f)
    violations = 0
    for f in new[:12]:
        print("  failure[%s] %s: case=%s detail=%s" % (f["kind"], f["key"], str(f["case"])[:300], str(f["detail"])[:400]))
    if new:
        # one VIOLATION line per distinct key, oracle failures first
        order = {"oracle": 0, "diff": 1, "proof": 2, "translate": 2, "build": 3}
        new.sort(key=lambda f: order.get(f["kind"], 9))
        have_input = any(f["kind"] == "oracle" for f in new)
        seen = set()
        for f in new:
            if f["key"] in seen:
                continue
            seen.add(f["key"])
            if have_input and f["kind"] != "oracle":
                # a broken proof/correspondence next to a concrete failing input: the input is the replay
                continue
            payload = {"property": ctx.prop, "kind": f["kind"], "key": f["key"], "case": f["case"], "detail": f["detail"],
                       "seed": ctx.seed, "tier": ctx.tier,
                       "replay_cmd": "python3 tools/vcheck.py %s --replay <this file>" % ctx.prop}
            path = write_replay(ctx.prop, payload)
            suffix = "" if f["kind"] == "oracle" else " no-failing-input-found"
            print("VIOLATION property=%s replay=%s%s" % (ctx.prop, path, suffix))
            violations += 1
        exit_code = 1
    wall = time.time() - ctx.t0
    cov = {
        "obligations": max(ctx.obligations, 1),
        "discharged": ctx.discharged,
        "checker_cmd": ctx.checker_cmd or "(proof step did not run)",
        "trusted_base": TRUSTED_COMMON + list(getattr(mod, "TRUSTED", [])),
        "axioms": sorted(ctx.axioms),
        "evaluations": ctx.evaluations,
        "distinct_nontrivial": len(ctx.distinct),
        "traces_validated_against_impl": ctx.traces_validated,
        "rule": getattr(mod, "RULE", ""),
        "samples": ctx.samples[:8] or [{"note": "no correspondence cases ran"}],
        "input_distribution": ctx.hist,
        "engines": ctx.engines,
        "exhaustive": ctx.exhaustive,
        "known_findings_seen": sorted(seen_known),
        "notes": ctx.notes,
    }
    if ctx.discharged == 0:
        del cov["discharged"]      # nothing was discharged: the schema's generic counts apply instead
    cov.update(ctx.extra)
    ev = {
        "property_id": ctx.prop, "tier": ctx.tier, "seed": ctx.seed, "level": "proof",
        "coverage": cov,
        "assumptions": list(getattr(mod, "ASSUMPTIONS", [])),
        "wall_s": round(wall, 2),
        "violations": violations,
    }
    os.makedirs(os.path.join(ROOT, "evidence"), exist_ok=True)
    with open(os.path.join(ROOT, "evidence", ctx.prop + ".json"), "w") as f:
        json.dump(ev, f, indent=1)
    print("%s %s: %d theorems discharged of %d, %d cases (%d distinct non-trivial), %d new failure(s), %.1fs" % (
        ctx.prop, ctx.tier, ctx.discharged, ctx.obligations, ctx.evaluations, len(ctx.distinct), len(new), wall))
    return exit_code


def load_prop(prop):
    sys.path.insert(0, os.path.join(ROOT, "tools"))
    return importlib.import_module("props." + prop.lower())


def run_check(prop, tier, seed):
    mod = load_prop(prop)
    ctx = Ctx(prop, tier, seed)
    # 1 translate
    try:
        import translate
        for name in getattr(mod, "TRANSLATORS", []):
            err = translate.run(name)
            if err:
                ctx.fail("translate", "translator-anchor-missing:" + name, name, err)
                ctx.proof_ok = False
    except Exception as e:  # noqa
        ctx.fail("translate", "translator-crashed", str(e), repr(e))
        ctx.proof_ok = False
    # 2 prove
    prove(ctx, mod)
    # 3 build implementation + model
    built = True
    for name in getattr(mod, "MODELS", []):
        ok, log = model_build(name)
        if not ok:
            ctx.fail("build", "model-build-failed:" + name, name, log[-2000:])
            built = False
    for profile, bins in getattr(mod, "BINS", {}).items():
        if profile == "debug" and not (ctx.thorough or getattr(mod, "DEBUG_IN_QUICK", False)):
            continue
        ok, log = cargo_build(bins, profile)
        if not ok:
            ctx.fail("build", "harness-build-failed", bins, log[-3000:])
            built = False
    # 4 correspond (when a proof broke, search harder: thorough-sized run)
    if built:
        if not ctx.proof_ok and not ctx.thorough:
            ctx.note("proof/translation step failed: running the thorough-sized search for a failing input")
            ctx.search_mode = True
        else:
            ctx.search_mode = False
        try:
            mod.run(ctx)
        except Exception as e:  # noqa
            import traceback
            ctx.fail("build", "correspondence-crashed", prop, traceback.format_exc()[-3000:])
    return finish(ctx, mod)
